/-
  C18 — activation functions equal their definitions.
  Model: RpyModel/Activations.lean, instantiated at ℝ with `Real.exp`, `Real.log`.
  The float-range clause (no overflow, a few ulp) cannot be a theorem about Lean's opaque `Float`:
  what is proved here is that the stable forms equal the definitions over ℝ and only ever
  exponentiate non-positive numbers, with denominators in [1, n] — the model-level reason no
  overflow, NaN or cancellation can occur; the float behaviour itself is carried by correspondence.
-/
import RpyModel.Activations
import Mathlib.Analysis.SpecialFunctions.Exp
import Mathlib.Analysis.SpecialFunctions.Log.Basic
import Mathlib.Algebra.BigOperators.Group.List.Basic
import Mathlib.Algebra.Order.BigOperators.Group.List
import Mathlib.Tactic.Ring
import Mathlib.Tactic.FieldSimp
import Mathlib.Tactic.Positivity
import Mathlib.Tactic.Linarith

set_option linter.unusedSectionVars false
set_option linter.unusedSimpArgs false

open Real

theorem sumA_eq_sum (l : List ℝ) : sumA l = l.sum := by
  have : ∀ (a : ℝ), l.foldl (· + ·) a = a + l.sum := by
    induction l with
    | nil => intro a; simp
    | cons x xs ih => intro a; simp [List.foldl_cons, ih, add_assoc]
  simp [sumA, this]

theorem denom_pos (β : ℝ) (xs : List ℝ) (h : xs ≠ []) : 0 < (xs.map fun y => exp (β * y)).sum := by
  cases xs with
  | nil => exact absurd rfl h
  | cons x xs =>
    simp only [List.map_cons, List.sum_cons]
    have : 0 ≤ (xs.map fun y => exp (β * y)).sum :=
      List.sum_nonneg (by intro y hy; obtain ⟨z, _, rfl⟩ := List.mem_map.mp hy; exact (exp_pos _).le)
    linarith [exp_pos (β * x)]

/-- softmax values are non-negative -/
theorem C18_softmax_nonneg (β : ℝ) (xs : List ℝ) : ∀ y ∈ softmaxDef exp β xs, 0 ≤ y := by
  intro y hy
  simp only [softmaxDef, sumA_eq_sum, List.mem_map] at hy
  obtain ⟨x, hx, rfl⟩ := hy
  exact div_nonneg (exp_pos _).le (denom_pos β xs (List.ne_nil_of_mem hx)).le

/-- … and sum to one -/
theorem C18_softmax_sum_one (β : ℝ) (xs : List ℝ) (h : xs ≠ []) : (softmaxDef exp β xs).sum = 1 := by
  simp only [softmaxDef, sumA_eq_sum]
  have hd := denom_pos β xs h
  have key : ∀ (l : List ℝ) (d : ℝ), (l.map fun x => x / d).sum = l.sum / d := by
    intro l d
    induction l with
    | nil => simp
    | cons a as ih => simp [ih, add_div]
  have := key (xs.map fun x => exp (β * x)) (xs.map fun y => exp (β * y)).sum
  simp only [List.map_map, Function.comp_def] at this
  rw [this]
  exact div_self hd.ne'

/-- adding a constant to all inputs changes nothing -/
theorem C18_softmax_shift (β c : ℝ) (xs : List ℝ) :
    softmaxDef exp β (xs.map (· + c)) = softmaxDef exp β xs := by
  simp only [softmaxDef, sumA_eq_sum, List.map_map, Function.comp_def]
  have e : ∀ y : ℝ, exp (β * (y + c)) = exp (β * y) * exp (β * c) := by
    intro y; rw [← exp_add]; ring_nf
  simp only [e]
  have hs : (xs.map fun y => exp (β * y) * exp (β * c)).sum = (xs.map fun y => exp (β * y)).sum * exp (β * c) := by
    induction xs with
    | nil => simp
    | cons x xs ih => simp [ih, add_mul]
  rw [hs]
  apply List.map_congr_left
  intro x _
  rw [mul_div_mul_right _ _ (exp_pos _).ne']

/-- outputs are ordered like β·inputs (β > 0) -/
theorem C18_softmax_order (β : ℝ) (hβ : 0 < β) (xs : List ℝ) (i j : Nat) (hi : i < xs.length) (hj : j < xs.length) :
    (softmaxDef exp β xs)[i]'(by simpa [softmaxDef] using hi) ≤ (softmaxDef exp β xs)[j]'(by simpa [softmaxDef] using hj)
      ↔ xs[i] ≤ xs[j] := by
  have hne : xs ≠ [] := by intro h; simp [h] at hi
  simp only [softmaxDef, sumA_eq_sum, List.getElem_map]
  rw [div_le_div_iff_of_pos_right (denom_pos β xs hne), exp_le_exp]
  exact mul_le_mul_iff_of_pos_left hβ

/-- **The stable form equals the definition** (for any shift `m`), and with `m` an upper bound
    of the inputs and β > 0 every exponent is ≤ 0; if moreover `m` is one of the inputs the
    denominator lies in [1, n]: no overflow, no division by 0, no cancellation. -/
theorem C18_softmax_stable (β m : ℝ) (xs : List ℝ) :
    softmaxStable exp β m xs = softmaxDef exp β xs
    ∧ (0 < β → (∀ x ∈ xs, x ≤ m) → ∀ x ∈ xs, β * (x - m) ≤ 0)
    ∧ (0 < β → (∀ x ∈ xs, x ≤ m) → m ∈ xs →
        1 ≤ (xs.map fun y => exp (β * (y - m))).sum ∧ (xs.map fun y => exp (β * (y - m))).sum ≤ xs.length) := by
  refine ⟨?_, ?_, ?_⟩
  · have := C18_softmax_shift β (-m) xs
    simp only [softmaxDef, sumA_eq_sum, List.map_map, Function.comp_def, ← sub_eq_add_neg] at this
    simpa [softmaxStable, softmaxDef, sumA_eq_sum] using this
  · intro hβ hm x hx
    exact mul_nonpos_of_nonneg_of_nonpos hβ.le (sub_nonpos.mpr (hm x hx))
  · intro hβ hm hmem
    have hle : ∀ x ∈ xs, exp (β * (x - m)) ≤ 1 := by
      intro x hx
      rw [← exp_zero]
      exact exp_le_exp.mpr (mul_nonpos_of_nonneg_of_nonpos hβ.le (sub_nonpos.mpr (hm x hx)))
    constructor
    · have hmem' : exp (β * (m - m)) ∈ xs.map fun y => exp (β * (y - m)) := List.mem_map.mpr ⟨m, hmem, rfl⟩
      have h1 : exp (β * (m - m)) = 1 := by simp
      rw [h1] at hmem'
      exact List.single_le_sum (by
        intro y hy; obtain ⟨z, _, rfl⟩ := List.mem_map.mp hy; exact (exp_pos _).le) 1 hmem'
    · have : (xs.map fun y => exp (β * (y - m))).sum ≤ (xs.map fun _ => (1 : ℝ)).sum := by
        apply List.sum_le_sum
        intro x hx; exact hle x hx
      simpa using this

/-- **sigmoid**: the two-branch form equals `1/(1+e⁻ˣ)`, lies in (0, 1), and each branch only
    exponentiates a non-positive number -/
theorem C18_sigmoid_branches (x : ℝ) :
    sigmoidBranch exp (fun a b => decide (a < b)) x = 1 / (1 + exp (-x))
    ∧ 0 < 1 / (1 + exp (-x)) ∧ 1 / (1 + exp (-x)) < 1
    ∧ (x < 0 → x ≤ 0) ∧ (¬ x < 0 → -x ≤ 0) := by
  refine ⟨?_, by positivity, ?_, fun h => h.le, fun h => by linarith⟩
  · unfold sigmoidBranch
    by_cases h : x < 0
    · simp only [h, decide_true, if_true]
      rw [exp_neg]; field_simp
    · simp [h]
  · rw [div_lt_one (by positivity)]
    linarith [exp_pos (-x)]

/-- **softplus**: the stable form `max(x,0) + log(1+e^{-|x|})` equals `log(1+eˣ)`; its exponent
    is ≤ 0 -/
theorem C18_softplus_stable (x : ℝ) :
    softplusStable exp log (fun a b => decide (a < b)) x = log (1 + exp x)
    ∧ -(if x < 0 then -x else x) ≤ 0 := by
  constructor
  · unfold softplusStable
    rcases lt_trichotomy x 0 with h | h | h
    · have h' : ¬ 0 < x := by linarith
      simp [h, h']
    · subst h; simp
    · have h' : ¬ x < 0 := by linarith
      simp only [h, h', decide_true, decide_false, if_true, Bool.false_eq_true, if_false]
      have : 1 + exp x = exp x * (1 + exp (-x)) := by rw [mul_add, mul_one, ← exp_add]; simp; ring
      rw [this, log_mul (exp_pos _).ne' (by positivity), log_exp]
  · split <;> linarith

theorem C18_relu (x : ℝ) : relu (fun a b => decide (a < b)) x = max x 0 := by
  unfold relu
  by_cases h : x < 0
  · simp [h, max_eq_right h.le]
  · simp [h, max_eq_left (not_lt.mp h)]

/-- element-wise functions preserve the (flattened) shape -/
theorem C18_shape {α : Type} (f : α → α) (xs : List α) : (xs.map f).length = xs.length := by simp

/-- Non-vacuity: the hypotheses of the stable-form theorem are satisfiable (max of a non-empty list). -/
example : (∀ x ∈ ([1, 3, 2] : List ℝ), x ≤ 3) ∧ (3 : ℝ) ∈ ([1, 3, 2] : List ℝ) := by
  constructor
  · intro x hx; simp at hx; rcases hx with rfl | rfl | rfl <;> norm_num
  · simp
