/-
  C01 — Reservoir states obey the documented leaky-integrator recurrence.

  Property theorems only (helper lemmas live in RpyProofs/Bridge.lean).  `R` is an arbitrary
  field: the statements hold for ℝ (what the documentation means) and for ℚ (what the exact
  driver runs).  The model is `RpyModel/Reservoir.lean`, a mirror of
  `reservoirpy/nodes/reservoirs/base.py`.
-/
import RpyModel.Reservoir
import RpyProofs.Bridge
import RpyModel.Codec

set_option linter.unusedSectionVars false

section
variable {R : Type} [Field R] [ZeroTest R]

/-- The dense matrix a storage format stands for. -/
def WStore.toDense {n : Nat} : WStore R n → Mat R n n
  | .dense W => W
  | .sparse c => cooToDense c

/-- All three noise gains are zero (the hypothesis of the property). -/
def ResParams.noiseFree {n m k : Nat} (p : ResParams R n m k) : Prop :=
  p.gIn = 0 ∧ p.gFb = 0 ∧ p.gRc = 0

/-- The documented pre-activation: W·x + Win·u + bias (+ Wfb·g(fb) when feedback is connected). -/
def preact {n m k : Nat} (p : ResParams R n m k) (x : Vec R n) (u : Vec R m) (fb : Vec R k)
    (i : Fin n) : R :=
  (∑ j : Fin n, p.W.toDense[i][j] * x[j]) + (∑ j : Fin m, p.Win[i][j] * u[j]) + p.bias[i]
    + (if p.hasFb then ∑ j : Fin k, p.Wfb[i][j] * p.g fb[j] else 0)

theorem C01_sparse_eq_dense {n : Nat} (c : COO R n n) (x : Vec R n) :
    (WStore.sparse c).apply x = (WStore.dense (cooToDense c)).apply x := by
  simp [WStore.apply, matVecCOO_eq_dense]

theorem WStore.apply_get {n : Nat} (W : WStore R n) (x : Vec R n) (i : Nat) (hi : i < n) :
    (W.apply x)[i] = ∑ j : Fin n, W.toDense[i][j] * x[j] := by
  cases W with
  | dense W => simp [WStore.apply, WStore.toDense]
  | sparse c => simp [WStore.apply, WStore.toDense, matVecCOO_eq_dense]

/-- With zero gains the kernel is the documented pre-activation, whatever the noise draws. -/
theorem C01_kernel_law {n m k : Nat} (hz : ZeroTest.isZero (0 : R) = true)
    (p : ResParams R n m k) (hp : p.noiseFree) (u : Vec R m) (x : Vec R n) (fb : Vec R k)
    (xi : NoiseDraw R n m k) (i : Fin n) :
    (kernel p u x fb xi)[i] = preact p x u fb i := by
  obtain ⟨h1, h2, _⟩ := hp
  unfold kernel preact noiseVec
  by_cases hfb : p.hasFb <;> simp [hfb, h1, h2, hz, WStore.apply_get]

/-- One step, 'internal' equation: x' = (1−lr)·x + lr·f(W·x + Win·u + b + Wfb·g(fb)). -/
theorem C01_step_internal {n m k : Nat} (hz : ZeroTest.isZero (0 : R) = true)
    (p : ResParams R n m k) (hp : p.noiseFree) (st : ResState R n) (u : Vec R m) (fb : Vec R k)
    (xi : NoiseDraw R n m k) (i : Fin n) :
    (fwdInternal p st u fb xi).x[i]
      = (1 - p.lr[i]) * st.x[i] + p.lr[i] * p.f (preact p st.x u fb i) := by
  have hk := C01_kernel_law hz p hp u st.x fb xi i
  have h3 := hp.2.2
  simp only [Fin.getElem_fin] at hk
  simp [fwdInternal, noiseVec, h3, hz, hk]

/-- One step, 'external' equation: s' = (1−lr)·s + lr·(W·x + Win·u + b + Wfb·g(fb)), x' = f(s'). -/
theorem C01_step_external {n m k : Nat} (hz : ZeroTest.isZero (0 : R) = true)
    (p : ResParams R n m k) (hp : p.noiseFree) (st : ResState R n) (u : Vec R m) (fb : Vec R k)
    (xi : NoiseDraw R n m k) (i : Fin n) :
    (fwdExternal p st u fb xi).s[i]
        = (1 - p.lr[i]) * st.s[i] + p.lr[i] * preact p st.x u fb i
    ∧ (fwdExternal p st u fb xi).x[i] = p.f (fwdExternal p st u fb xi).s[i] := by
  have hk := C01_kernel_law hz p hp u st.x fb xi i
  have h3 := hp.2.2
  simp only [Fin.getElem_fin] at hk
  simp [fwdExternal, noiseVec, h3, hz, hk]

/-- `trajRes` really is the sequence of memories: consecutive elements are related by one
    forward step on that step's data. -/
theorem traj_succ {n m k : Nat} (eq : Equation) (p : ResParams R n m k) (st : ResState R n)
    (steps : List (StepIn R n m k)) (t : Nat) (ht : t < steps.length) :
    ∃ (h0 : t < (trajRes eq p st steps).length) (h1 : t + 1 < (trajRes eq p st steps).length),
      (trajRes eq p st steps)[t + 1] =
        fwdRes eq p (trajRes eq p st steps)[t] steps[t].u steps[t].fb steps[t].xi := by
  induction steps generalizing st t with
  | nil => simp at ht
  | cons s ss ih =>
    cases t with
    | zero =>
      refine ⟨by simp [trajRes], ?_, ?_⟩
      · cases ss <;> simp [trajRes]
      · cases ss <;> simp [trajRes]
    | succ t =>
      have ht' : t < ss.length := by simpa using ht
      obtain ⟨h0, h1, h⟩ := ih (fwdRes eq p st s.u s.fb s.xi) t ht'
      refine ⟨by simp [trajRes]; omega, by simp [trajRes]; omega, ?_⟩
      simpa [trajRes] using h

theorem traj_length {n m k : Nat} (eq : Equation) (p : ResParams R n m k) (st : ResState R n)
    (steps : List (StepIn R n m k)) : (trajRes eq p st steps).length = steps.length + 1 := by
  induction steps generalizing st with
  | nil => simp [trajRes]
  | cons s ss ih => simp [trajRes, ih]

/-- **C01, internal equation, every step of every run from every state.**  For all
    parameters with zero gains, all noise streams, all start memories, all input and feedback
    sequences and every step t: the state after step t obeys the law w.r.t. the state before. -/
theorem C01_run_law_internal {n m k : Nat} (hz : ZeroTest.isZero (0 : R) = true)
    (p : ResParams R n m k) (hp : p.noiseFree) (st : ResState R n)
    (steps : List (StepIn R n m k)) (t : Nat) (ht : t < steps.length) (i : Fin n) :
    ∃ (h0 : t < (trajRes .internal p st steps).length)
      (h1 : t + 1 < (trajRes .internal p st steps).length),
      ((trajRes .internal p st steps)[t + 1]).x[i]
        = (1 - p.lr[i]) * ((trajRes .internal p st steps)[t]).x[i]
          + p.lr[i] * p.f (preact p ((trajRes .internal p st steps)[t]).x steps[t].u steps[t].fb i) := by
  obtain ⟨h0, h1, h⟩ := traj_succ .internal p st steps t ht
  refine ⟨h0, h1, ?_⟩
  rw [h]
  exact C01_step_internal hz p hp _ _ _ _ i

/-- **C01, external equation, every step of every run from every state.** -/
theorem C01_run_law_external {n m k : Nat} (hz : ZeroTest.isZero (0 : R) = true)
    (p : ResParams R n m k) (hp : p.noiseFree) (st : ResState R n)
    (steps : List (StepIn R n m k)) (t : Nat) (ht : t < steps.length) (i : Fin n) :
    ∃ (h0 : t < (trajRes .external p st steps).length)
      (h1 : t + 1 < (trajRes .external p st steps).length),
      ((trajRes .external p st steps)[t + 1]).s[i]
        = (1 - p.lr[i]) * ((trajRes .external p st steps)[t]).s[i]
          + p.lr[i] * preact p ((trajRes .external p st steps)[t]).x steps[t].u steps[t].fb i
      ∧ ((trajRes .external p st steps)[t + 1]).x[i]
        = p.f ((trajRes .external p st steps)[t + 1]).s[i] := by
  obtain ⟨h0, h1, h⟩ := traj_succ .external p st steps t ht
  refine ⟨h0, h1, ?_⟩
  rw [h]
  exact C01_step_external hz p hp _ _ _ _ i

theorem trajRes_eq_cons {n m k : Nat} (eq : Equation) (p : ResParams R n m k) (st : ResState R n)
    (steps : List (StepIn R n m k)) :
    trajRes eq p st steps = st :: (trajRes eq p st steps).tail := by
  cases steps <;> simp [trajRes]

/-- What `run` returns is the trajectory: the emitted rows are the states after each step and
    the node is left in the last memory. -/
theorem C01_run_outputs {n m k : Nat} (eq : Equation) (p : ResParams R n m k) (st : ResState R n)
    (steps : List (StepIn R n m k)) :
    (runRes eq p st steps).1 = ((trajRes eq p st steps).tail).map (·.x)
    ∧ (trajRes eq p st steps).getLast? = some (runRes eq p st steps).2 := by
  induction steps generalizing st with
  | nil => simp [runRes, trajRes]
  | cons s ss ih =>
    obtain ⟨h1, h2⟩ := ih (fwdRes eq p st s.u s.fb s.xi)
    constructor
    · simp only [runRes, trajRes, List.tail_cons]
      rw [trajRes_eq_cons eq p (fwdRes eq p st s.u s.fb s.xi) ss, List.map_cons, ← h1]
    · simp only [runRes, trajRes]
      rw [List.getLast?_cons_of_ne_nil]
      · exact h2
      · rw [trajRes_eq_cons]; simp

theorem noiseVec_zero {d : Nat} (hz : ZeroTest.isZero (0 : R) = true) (xi : Vec R d) :
    noiseVec (0 : R) xi = vzero d := by
  simp [noiseVec, hz]

/-- With zero gains the whole run is independent of the noise draws. -/
theorem C01_zero_gain_ignores_noise {n m k : Nat} (hz : ZeroTest.isZero (0 : R) = true)
    (eq : Equation) (p : ResParams R n m k) (hp : p.noiseFree) (st : ResState R n)
    (u : Vec R m) (fb : Vec R k) (xi xi' : NoiseDraw R n m k) :
    fwdRes eq p st u fb xi = fwdRes eq p st u fb xi' := by
  obtain ⟨h1, h2, h3⟩ := hp
  have hk : kernel p u st.x fb xi = kernel p u st.x fb xi' := by
    simp only [kernel, h1, h2, noiseVec_zero hz]
  cases eq
  · simp only [fwdRes, fwdInternal, hk, h3, noiseVec_zero hz]
  · simp only [fwdRes, fwdExternal, hk, h3, noiseVec_zero hz]

/-- Feedback off: the feedback value is irrelevant. -/
theorem C01_no_feedback {n m k : Nat} (eq : Equation) (p : ResParams R n m k)
    (hfb : p.hasFb = false) (st : ResState R n) (u : Vec R m) (fb fb' : Vec R k)
    (xi : NoiseDraw R n m k) :
    fwdRes eq p st u fb xi = fwdRes eq p st u fb' xi := by
  cases eq <;> simp [fwdRes, fwdInternal, fwdExternal, kernel, hfb]

end

/-- Non-vacuity: a concrete noise-free 2-unit reservoir with feedback, a non-zero start state
    and an input satisfies the hypotheses, and the model computes on it. -/
def exampleParams : ResParams Rat 2 1 1 :=
  { W := .dense #v[#v[1/2, 0], #v[1/4, -1/2]], Win := #v[#v[1], #v[1/2]], bias := #v[0, 1/8],
    hasFb := true, Wfb := #v[#v[1/4], #v[0]], lr := #v[1/2, 1/4], f := ratRelu, g := id,
    gIn := 0, gFb := 0, gRc := 0 }

example : exampleParams.noiseFree ∧ ZeroTest.isZero (0 : Rat) = true := ⟨⟨rfl, rfl, rfl⟩, by decide⟩

example :
    (runRes .internal exampleParams ⟨#v[1/2, -1/4], #v[0, 0]⟩
        [⟨#v[1], #v[1/2], ⟨#v[0], #v[0], #v[0, 0]⟩⟩]).1 = [#v[15/16, 1/32]] := by
  decide +kernel
