/-
  C02 — a model computes the composition of its nodes along the graph.
  Model: RpyModel/Dataflow.lean (`forwardF`, `inputsOf`), generic in the node behaviour.
-/
import RpyModel.Dataflow
import Mathlib.Data.List.Perm.Basic
import Mathlib.Data.List.Nodup

set_option linter.unusedSectionVars false
set_option linter.unusedVariables false

variable {S M : Type}

/-- `order` is duplicate free and no node has a parent later in the order (or itself):
    a topological order of the sub-graph it spans. -/
def TopoFrom (net : FNet S M) : List Nat → Prop
  | [] => True
  | v :: vs => v ∉ vs ∧ (∀ p ∈ net.parents v, p ∉ vs ∧ p ≠ v) ∧ TopoFrom net vs

/-- no feedback connection is involved (C02 is about the feed-forward part; C05 covers feedback) -/
def NoFeedback (net : FNet S M) : Prop := ∀ v, net.fbSender v = none

theorem readFb_nofb (net : FNet S M) (h : NoFeedback net) (σ : Store S M) (v : Nat) :
    readFb net σ v = (none, σ) := by
  simp [readFb, h v]

/-- the value node `v` takes when evaluated on store `τ`'s view of its inputs, from its own
    memory and state in `σ` -/
def evalNode (net : FNet S M) (ext : Nat → Option S) (σ τ : Store S M) (v : Nat) : M × S :=
  net.fwd v (σ v).mem (σ v).st (inputsOf net ext τ v) none

theorem forwardF_cons_nofb (net : FNet S M) (h : NoFeedback net) (ext : Nat → Option S) (v : Nat)
    (vs : List Nat) (σ : Store S M) :
    forwardF net ext (v :: vs) σ
      = forwardF net ext vs (upd σ v { σ v with st := (evalNode net ext σ σ v).2,
                                                mem := (evalNode net ext σ σ v).1 }) := by
  simp [forwardF, readFb_nofb net h, evalNode]

/-- nodes that are not in the order are left untouched -/
theorem C02_not_mem (net : FNet S M) (h : NoFeedback net) (ext : Nat → Option S) :
    ∀ (vs : List Nat) (σ : Store S M) (w : Nat), w ∉ vs → forwardF net ext vs σ w = σ w := by
  intro vs
  induction vs with
  | nil => intro σ w _; rfl
  | cons v vs ih =>
    intro σ w hw
    simp only [List.mem_cons, not_or] at hw
    rw [forwardF_cons_nofb net h, ih _ _ hw.2]
    simp [upd, hw.1]

theorem inputsOf_congr (net : FNet S M) (ext : Nat → Option S) (σ τ : Store S M) (v : Nat)
    (h : ∀ p ∈ net.parents v, (σ p).st = (τ p).st) : inputsOf net ext σ v = inputsOf net ext τ v := by
  unfold inputsOf
  congr 1
  apply List.map_congr_left
  intro p hp; exact h p hp

/-- **Each node once, after its predecessors, on their outputs of this same step.**  For every
    topological order and every node `v` of it, the new state and memory of `v` are its step
    function applied to its *own previous* memory and state and to the *new* states of its
    parents (followed by its external input) — proxies and clamps are untouched. -/
theorem C02_forward_fixpoint (net : FNet S M) (h : NoFeedback net) (ext : Nat → Option S) :
    ∀ (vs : List Nat) (σ : Store S M), TopoFrom net vs → ∀ v ∈ vs,
      (forwardF net ext vs σ v).st = (evalNode net ext σ (forwardF net ext vs σ) v).2
      ∧ (forwardF net ext vs σ v).mem = (evalNode net ext σ (forwardF net ext vs σ) v).1
      ∧ (forwardF net ext vs σ v).proxy = (σ v).proxy
      ∧ (forwardF net ext vs σ v).clamp = (σ v).clamp := by
  intro vs
  induction vs with
  | nil => intro σ _ v hv; simp at hv
  | cons v' vs ih =>
    intro σ ht v hv
    obtain ⟨hnot, hpar, ht'⟩ := ht
    rw [forwardF_cons_nofb net h]
    set σ1 := upd σ v' { σ v' with st := (evalNode net ext σ σ v').2, mem := (evalNode net ext σ σ v').1 }
      with hσ1
    rcases List.mem_cons.mp hv with rfl | hvs
    · rw [C02_not_mem net h ext vs σ1 v hnot]
      have hin : inputsOf net ext (forwardF net ext vs σ1) v = inputsOf net ext σ v := by
        apply inputsOf_congr
        intro p hp
        have := hpar p hp
        rw [C02_not_mem net h ext vs σ1 p this.1]
        simp [hσ1, upd, this.2]
      simp only [evalNode, hin]
      simp [hσ1, upd, evalNode]
    · have hne : v ≠ v' := by rintro rfl; exact hnot hvs
      obtain ⟨h1, h2, h3, h4⟩ := ih σ1 ht' v hvs
      have hσv : σ1 v = σ v := by simp [hσ1, upd, hne]
      refine ⟨?_, ?_, ?_, ?_⟩
      · rw [h1]; simp only [evalNode, hσv]
      · rw [h2]; simp only [evalNode, hσv]
      · rw [h3, hσv]
      · rw [h4, hσv]

/-- **Uniqueness.** Any store that satisfies these equations on the order and agrees with the
    old store elsewhere has the same states and memories: "what is obtained by evaluating each
    node once after its predecessors" is well defined. -/
theorem C02_unique (net : FNet S M) (h : NoFeedback net) (ext : Nat → Option S) :
    ∀ (vs : List Nat) (σ τ : Store S M), TopoFrom net vs →
      (∀ w, w ∉ vs → (τ w).st = (σ w).st) →
      (∀ v ∈ vs, (τ v).st = (evalNode net ext σ τ v).2 ∧ (τ v).mem = (evalNode net ext σ τ v).1) →
      ∀ v ∈ vs, (τ v).st = (forwardF net ext vs σ v).st ∧ (τ v).mem = (forwardF net ext vs σ v).mem := by
  intro vs
  induction vs with
  | nil => intro σ τ _ _ _ v hv; simp at hv
  | cons v' vs ih =>
    intro σ τ ht hout heq v hv
    obtain ⟨hnot, hpar, ht'⟩ := ht
    rw [forwardF_cons_nofb net h]
    set σ1 := upd σ v' { σ v' with st := (evalNode net ext σ σ v').2, mem := (evalNode net ext σ σ v').1 }
      with hσ1
    -- τ at v' is the value computed from σ: its parents are outside the whole order
    have hin' : inputsOf net ext τ v' = inputsOf net ext σ v' := by
      apply inputsOf_congr
      intro p hp
      have := hpar p hp
      exact hout p (by simp [this.1, this.2])
    have hτv' : (τ v').st = (evalNode net ext σ σ v').2 ∧ (τ v').mem = (evalNode net ext σ σ v').1 := by
      have := heq v' (by simp)
      simpa [evalNode, hin'] using this
    rcases List.mem_cons.mp hv with rfl | hvs
    · rw [C02_not_mem net h ext vs σ1 v hnot]
      simpa [hσ1, upd] using hτv'
    · have hne : v ≠ v' := by rintro rfl; exact hnot hvs
      apply ih σ1 τ ht'
      · intro w hw
        by_cases hwv : w = v'
        · subst hwv; simp [hσ1, upd, hτv'.1]
        · have : (σ1 w).st = (σ w).st := by simp [hσ1, upd, hwv]
          rw [this]; exact hout w (by simp [hw, hwv])
      · intro u hu
        have hune : u ≠ v' := by rintro rfl; exact hnot hu
        have hσu : σ1 u = σ u := by simp [hσ1, upd, hune]
        have := heq u (by simp [hu])
        simpa [evalNode, hσu] using this
      · exact hvs

/-- **Any two topological orders of the same nodes give the same result.** -/
theorem C02_order_irrelevant (net : FNet S M) (h : NoFeedback net) (ext : Nat → Option S)
    (vs ws : List Nat) (σ : Store S M) (hv : TopoFrom net vs) (hw : TopoFrom net ws)
    (hperm : ∀ x, x ∈ vs ↔ x ∈ ws) (v : Nat) :
    (forwardF net ext vs σ v).st = (forwardF net ext ws σ v).st
    ∧ (forwardF net ext vs σ v).mem = (forwardF net ext ws σ v).mem := by
  by_cases hmem : v ∈ ws
  · have key := C02_unique net h ext ws σ (forwardF net ext vs σ) hw
      (fun w hwn => by rw [C02_not_mem net h ext vs σ w (fun hx => hwn ((hperm w).mp hx))])
      (fun u hu => by
        obtain ⟨h1, h2, _, _⟩ := C02_forward_fixpoint net h ext vs σ hv u ((hperm u).mpr hu)
        exact ⟨h1, h2⟩)
      v hmem
    exact key
  · have hv' : v ∉ vs := fun hx => hmem ((hperm v).mp hx)
    rw [C02_not_mem net h ext vs σ v hv', C02_not_mem net h ext ws σ v hmem]
    exact ⟨rfl, rfl⟩

/-- **Named inputs reach exactly the named nodes**: a node's input list ends with its external
    input iff one is given for it; the parents' part is untouched by inputs named for others. -/
theorem C02_named_inputs (net : FNet S M) (ext : Nat → Option S) (σ : Store S M) (v : Nat) :
    inputsOf net ext σ v = (net.parents v).map (fun p => (σ p).st) ++ (ext v).toList
    ∧ (ext v = none → inputsOf net ext σ v = (net.parents v).map (fun p => (σ p).st)) := by
  refine ⟨rfl, ?_⟩
  intro h; simp [inputsOf, h]

/-- Non-vacuity: a diamond 0 → {1, 2} → 3 with a concrete integer step function. -/
def diamond : FNet Int Unit :=
  { parents := fun v => match v with | 1 => [0] | 2 => [0] | 3 => [1, 2] | _ => [],
    fbSender := fun _ => none,
    fwd := fun v _ _ ins _ => ((), ins.foldl (· + ·) (v : Int)),
    zero := fun _ => 0 }

example : TopoFrom diamond [0, 1, 2, 3] ∧ TopoFrom diamond [0, 2, 1, 3] ∧ NoFeedback diamond := by
  refine ⟨?_, ?_, fun _ => rfl⟩ <;> simp [TopoFrom, diamond]

example : (forwardF diamond (fun v => if v = 0 then some 10 else none) [0, 1, 2, 3]
    ⟨fun _ => ⟨0, (), none, none⟩⟩ 3).st = 26 := by decide
