#!/bin/bash
# run every quick check on /repo's current tree, 4 at a time; prints one line per check
cd "$(dirname "$0")/.."
seed=${1:-0}
ls harness/c[0-9][0-9].py | sed 's/.*\(c[0-9][0-9]\).py/\1/' | tr a-z A-Z | \
  xargs -P ${JOBS:-4} -I{} sh -c "VERIF_SEED=$seed ./check {} --tier quick > /root/scratch/q_{}_$seed.log 2>&1; echo {} rc=\$? \$(tail -1 /root/scratch/q_{}_$seed.log)"
