#!/venv/bin/python
"""Seeded-change bookkeeping.

  tools/seeded.py verify <src_dir> <name>   confirm a sub-agent's change in a scratch worktree
        (demo passes clean, fails patched, test suite unchanged) and store it as seeded/<name>/
  tools/seeded.py run <name> [prop ...]     apply seeded/<name>/patch.diff to /repo, run ./check for the
        property (quick tier), undo the patch; records seeded/<name>/result.json
  tools/seeded.py runall                    run every stored change
"""
import json
import os
import shutil
import subprocess
import sys
import time

ROOT = os.path.dirname(os.path.dirname(os.path.abspath(__file__)))
REPO = "/repo"
PY = "/venv/bin/python"


def sh(cmd, cwd=None, env=None, timeout=1800):
    e = dict(os.environ)
    if env:
        e.update(env)
    p = subprocess.run(cmd, shell=True, cwd=cwd, env=e, stdout=subprocess.PIPE, stderr=subprocess.STDOUT,
                       timeout=timeout)
    return p.returncode, p.stdout.decode(errors="replace")


def verify(src, name):
    wt = f"/tmp/vs_{name}"
    sh(f"git -C {REPO} worktree remove --force {wt}")
    rc, out = sh(f"git -C {REPO} worktree add -q --detach {wt} HEAD")
    assert rc == 0, out
    try:
        env = {"PYTHONPATH": wt}
        demo = os.path.join(src, "demo.py")
        rc_clean, out_clean = sh(f"{PY} {demo}", cwd=wt, env=env, timeout=600)
        rc, out = sh(f"git apply {os.path.join(src, 'patch.diff')}", cwd=wt)
        if rc != 0:
            print("patch does not apply:", out)
            return False
        rc_pat, out_pat = sh(f"{PY} {demo}", cwd=wt, env=env, timeout=600)
        rc_t, out_t = sh(f"{PY} -m pytest -q -p no:cacheprovider --timeout=900 reservoirpy 2>&1 | tail -12",
                         cwd=wt, env=env, timeout=3000)
        summary = [l for l in out_t.splitlines() if " passed" in l or " failed" in l][-1:]
        failed = sorted(l.split()[1] for l in out_t.splitlines() if l.startswith("FAILED"))
        # baseline of the current /repo HEAD: 392 pinned tests + test_random_sparse_scalings[shape6...],
        # which fix e0e4c59 (D31) made pass; the 4 remaining failures are environment incompatibilities
        ok_tests = bool(summary) and "393 passed" in summary[0] and "4 failed" in summary[0]
        print(f"[{name}] demo clean rc={rc_clean} patched rc={rc_pat} tests: {summary}")
        ok = rc_clean == 0 and rc_pat != 0 and ok_tests
        if not ok:
            print(out_clean[-800:], "\n---\n", out_pat[-800:], "\n---\n", out_t[-1500:])
            return False
        dst = os.path.join(ROOT, "seeded", name)
        os.makedirs(dst, exist_ok=True)
        shutil.copy(os.path.join(src, "patch.diff"), dst)
        shutil.copy(demo, dst)
        meta = {}
        mp = os.path.join(src, "meta.json")
        if os.path.exists(mp):
            try:
                meta = json.load(open(mp))
            except Exception:
                meta = {"raw": open(mp).read()}
        meta["confirmed"] = {
            "by": "tools/seeded.py verify, in a scratch worktree of /repo HEAD (removed afterwards)",
            "demo_clean_rc": rc_clean, "demo_patched_rc": rc_pat,
            "tests_with_patch": summary[0] if summary else "", "failed_tests_with_patch": failed,
            "demo_patched_output_tail": out_pat[-600:],
        }
        json.dump(meta, open(os.path.join(dst, "meta.json"), "w"), indent=1)
        return True
    finally:
        sh(f"git -C {REPO} worktree remove --force {wt}")
        sh(f"rm -rf {wt}")


def run(name, props=None, tier="quick", seeds=(0,)):
    d = os.path.join(ROOT, "seeded", name)
    meta = json.load(open(os.path.join(d, "meta.json")))
    props = props or [meta.get("property") or name.split("-")[0]]
    rc, out = sh(f"git -C {REPO} status --porcelain -- reservoirpy")
    assert out.strip() == "", "repo not clean: " + out
    rc, out = sh(f"git -C {REPO} apply {os.path.join(d, 'patch.diff')}")
    if rc != 0:
        print(f"[{name}] patch does not apply to /repo: {out}")
        return None
    results = {}
    try:
        for p in props:
            for seed in seeds:
                t = time.time()
                rc, out = sh(f"./check {p} --tier {tier}", cwd=ROOT, env={"VERIF_SEED": str(seed)}, timeout=3000)
                viol = [l for l in out.splitlines() if l.startswith("VIOLATION")]
                results[f"{p}/seed{seed}"] = {"rc": rc, "violations": viol[:3], "wall": round(time.time() - t, 1),
                                              "tail": out[-300:] if rc not in (0, 1) else ""}
                print(f"[{name}] {p} seed={seed} rc={rc} {viol[:1]}")
    finally:
        sh(f"git -C {REPO} checkout -- reservoirpy")
    json.dump({"ran": time.strftime("%Y-%m-%d %H:%M"), "tier": tier, "results": results,
               "detected": any(r["rc"] == 1 for r in results.values())},
              open(os.path.join(d, "result.json"), "w"), indent=1)
    # evidence files were rewritten against a patched tree: restore them from git
    sh("git checkout -- evidence", cwd=ROOT)
    return results


def prun_one(name, tier="quick", seed=0, keep=False):
    """Run the property's check against a scratch worktree of /repo HEAD with the change applied (PYTHONPATH
    makes `import reservoirpy` resolve to the worktree; evidence and replays go to a scratch VERIF_OUT), so that
    many changes can be exercised at once and /repo itself is never patched."""
    d = os.path.join(ROOT, "seeded", name)
    meta = json.load(open(os.path.join(d, "meta.json")))
    prop = meta.get("property") or name.split("-")[0]
    wt = f"/tmp/sp_{name}"
    outd = f"/tmp/sp_out_{name}"
    sh(f"git -C {REPO} worktree remove --force {wt}; rm -rf {wt} {outd}")
    rc, out = sh(f"git -C {REPO} worktree add -q --detach {wt} HEAD")
    assert rc == 0, out
    try:
        rc, out = sh(f"git apply {os.path.join(d, 'patch.diff')}", cwd=wt)
        if rc != 0:
            print(f"[{name}] patch does not apply: {out}", flush=True)
            return name, None
        t = time.time()
        rc, out = sh(f"./check {prop} --tier {tier}", cwd=ROOT,
                     env={"VERIF_SEED": str(seed), "PYTHONPATH": wt, "VERIF_REPO": wt, "VERIF_OUT": outd}, timeout=3000)
        viol = [l for l in out.splitlines() if l.startswith("VIOLATION")]
        what = []
        for v in viol[:3]:
            try:
                rp = v.split("replay=")[1].split()[0]
                what.append(json.load(open(os.path.join(outd, rp))).get("what", "")[:300])
            except Exception:
                pass
        res = {f"{prop}/seed{seed}": {"rc": rc, "violations": viol[:3], "what": what, "wall": round(time.time() - t, 1),
                                     "tail": out[-600:] if rc not in (0, 1) else ""}}
        print(f"[{name}] {prop} seed={seed} rc={rc} {viol[:1]} {what[:1]}", flush=True)
        json.dump({"ran": time.strftime("%Y-%m-%d %H:%M"), "tier": tier, "results": res, "mode": "scratch worktree",
                   "detected": rc == 1}, open(os.path.join(d, "result.json"), "w"), indent=1)
        return name, rc
    finally:
        sh(f"git -C {REPO} worktree remove --force {wt}; rm -rf {wt}")
        if not keep:
            sh(f"rm -rf {outd}")


def prun(names, jobs=6):
    from concurrent.futures import ThreadPoolExecutor
    with ThreadPoolExecutor(jobs) as ex:
        res = list(ex.map(prun_one, names))
    missed = [n for n, rc in res if rc != 1]
    print(f"ran {len(res)}; not reported: {missed}")
    return res


if __name__ == "__main__":
    cmd = sys.argv[1]
    if cmd == "verify":
        ok = verify(sys.argv[2], sys.argv[3])
        sys.exit(0 if ok else 1)
    elif cmd == "run":
        run(sys.argv[2], sys.argv[3:] or None)
    elif cmd == "prun":
        args = sys.argv[2:]
        jobs = 6
        if args and args[0].startswith("-j"):
            jobs = int(args[0][2:]); args = args[1:]
        alln = sorted(n for n in os.listdir(os.path.join(ROOT, "seeded"))
                      if os.path.exists(os.path.join(ROOT, "seeded", n, "patch.diff")))
        if not args or args == ["all"]:
            names = alln
        else:
            names = [n for n in alln if any(n == a or n.startswith(a + "-") for a in args)]
        prun(names, jobs)
    elif cmd == "runall":
        for n in sorted(os.listdir(os.path.join(ROOT, "seeded"))):
            if os.path.exists(os.path.join(ROOT, "seeded", n, "patch.diff")):
                run(n)
