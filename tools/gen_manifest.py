#!/usr/bin/env python3
"""Regenerates MANIFEST.json from the table below (single source for the per-property claims)."""
import json, os
ROOT = os.path.dirname(os.path.dirname(os.path.abspath(__file__)))

CLAIMS = {
 "C01": dict(
  technique="Lean 4 proof over an arbitrary field (induction over the run) + differential correspondence of Reservoir with the executable model (exact rationals / float)",
  text="Proved in Lean for all parameters, start states, input/feedback sequences and noise streams: with zero gains every step of the model run obeys the documented internal/external law, sparse storage equals dense, the run is independent of the noise draws (C01_run_law_internal/_external, C01_sparse_eq_dense, C01_zero_gain_ignores_noise). The tie to nodes/reservoirs/base.py is a correspondence check: the same definitions run on exact rationals (bit-exact comparison, piecewise-linear activations) and on Float (tanh/sigmoid, initialiser-built weights, 1e-9) against Reservoir.run/call on generated configurations, with a direct numpy oracle of the step law for the failing-input search.",
  note="Trusted: Lean kernel + 3 standard axioms; the hand-written model; the harness. Not verified: float64 rounding, np.tanh, BLAS, scipy sparse kernels (observed through the correspondence only).",
  design="§6 C01"),
 "C17": dict(
  technique="Lean 4 proof (list induction: store invariant, strided selection, multiset-coefficient count, deque law) + exact differential correspondence of NVAR/Delay/Concat with the executable model",
  text="Proved in Lean for every store length, stride, delay, order and input sequence: after u0..ut the NVAR store row j is u(t-j) (zero before the start), the strided selection is u(t), u(t-s), ..., u(t-(k-1)s), the output is that linear part followed by one monomial per combination-with-replacement in itertools order (count = C(kd+n-1,n), every combination sorted in pool order); Delay emits buf reversed then the inputs shifted by d, d=0 is the identity; Concat lays its parts side by side in the order given. Tied to the code by exact (rational equality) comparison of NVAR.run/call, Delay.run/call, Concat.call with the model driver on the full small configuration grid, plus a direct Python oracle of the documented functions.",
  note="Trusted: Lean kernel + standard axioms; the hand-written model lean/RpyModel/Windows.lean; the harness. Not verified: numpy roll/ravel/prod internals (observed only through the correspondence).",
  design="§6 C17"),
}

NOT_YET = "check not built yet in this revision (planned, see DESIGN.md §11)"

def main():
    props = [json.loads(l) for l in open(os.path.join(ROOT, "properties.jsonl"))]
    checks, na = [], []
    for p in props:
        pid = p["id"]
        c = CLAIMS.get(pid)
        if c is None:
            na.append({"property_id": pid, "reason": NOT_YET})
            continue
        checks.append({
            "property_id": pid,
            "quick_cmd": f"./check {pid} --tier quick",
            "thorough_cmd": f"./check {pid} --tier thorough",
            "evidence_file": f"evidence/{pid}.json",
            "replay_cmd_template": f"./check {pid} --replay {{path}}",
            "engine": "lean4-proof+correspondence",
            "level_claimed": {"category": c.get("category", "proof"), "text": c["text"], "design_ref": c["design"]},
            "level_note": c["note"],
            "technique": c["technique"],
        })
    m = {
        "version": 1,
        "setup_cmd": "cd lean && lake build",
        "hooks": {
            "guard": "RESERVOIRPY_VERIF",
            "enable": "environment variable RESERVOIRPY_VERIF=1 at run time (set by ./check); pure Python, nothing to rebuild",
            "baseline_off_cmd": "cd /repo && env -u RESERVOIRPY_VERIF /venv/bin/python -m pytest -ra -q -p no:cacheprovider --timeout=900 --continue-on-collection-errors",
            "source_commits": HOOK_COMMITS,
            "add_only": True,
        },
        "engines": [{
            "name": "lean4-proof+correspondence",
            "path": "check",
            "serves_properties": [c["property_id"] for c in checks],
            "kind_free_text": "Lean 4 theorems about a hand-written executable model (lean/RpyModel, lean/RpyProofs) + per-run differential correspondence of the model driver with the real library (harness/), direct oracle for failing-input search",
        }],
        "checks": checks,
        "not_applicable": na,
        "notes": "See DESIGN.md. ./check exits 0 held / 1 violation / 2 framework error. known_findings.json lists recorded defects.",
    }
    with open(os.path.join(ROOT, "MANIFEST.json"), "w") as f:
        json.dump(m, f, indent=1)

HOOK_COMMITS = []

if __name__ == "__main__":
    main()
