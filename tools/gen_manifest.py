#!/usr/bin/env python3
"""Regenerates MANIFEST.json from the table below (single source for the per-property claims)."""
import json, os
ROOT = os.path.dirname(os.path.dirname(os.path.abspath(__file__)))

CLAIMS = {
 "C01": dict(
  technique="Lean 4 proof over an arbitrary field (induction over the run) + differential correspondence of Reservoir with the executable model (exact rationals / float)",
  text="Proved in Lean for all parameters, start states, input/feedback sequences and noise streams: with zero gains every step of the model run obeys the documented internal/external law, sparse storage equals dense, the run is independent of the noise draws (C01_run_law_internal/_external, C01_sparse_eq_dense, C01_zero_gain_ignores_noise). The tie to nodes/reservoirs/base.py is a correspondence check: the same definitions run on exact rationals (bit-exact comparison, piecewise-linear activations) and on Float (tanh/sigmoid, initialiser-built weights, 1e-9) against Reservoir.run/call on generated configurations, with a direct numpy oracle of the step law for the failing-input search.",
  note="Trusted: Lean kernel + 3 standard axioms; the hand-written model; the harness. Not verified: float64 rounding, np.tanh, BLAS, scipy sparse kernels (observed through the correspondence only).",
  design="§6 C01"),
 "C17": dict(
  technique="Lean 4 proof (list induction: store invariant, strided selection, multiset-coefficient count, deque law) + exact differential correspondence of NVAR/Delay/Concat with the executable model",
  text="Proved in Lean for every store length, stride, delay, order and input sequence: after u0..ut the NVAR store row j is u(t-j) (zero before the start), the strided selection is u(t), u(t-s), ..., u(t-(k-1)s), the output is that linear part followed by one monomial per combination-with-replacement in itertools order (count = C(kd+n-1,n), every combination sorted in pool order); Delay emits buf reversed then the inputs shifted by d, d=0 is the identity; Concat lays its parts side by side in the order given. Tied to the code by exact (rational equality) comparison of NVAR.run/call, Delay.run/call, Concat.call with the model driver on the full small configuration grid, plus a direct Python oracle of the documented functions.",
  note="Trusted: Lean kernel + standard axioms; the hand-written model lean/RpyModel/Windows.lean; the harness. Not verified: numpy roll/ravel/prod internals (observed only through the correspondence).",
  design="§6 C17"),
 "C20": dict(
  technique="Lean 4 proof (list/index arithmetic, sortedness of the class list, generic iterated-map lemma) + exact differential correspondence of to_forecasting / one_hot_encode index maps and exact step-residual check of the map generators",
  text="Proved in Lean for every series length, forecast and test length: X[i]=s[i], y[i]=s[i+f], both of length n-f; train ++ test = whole, in order, disjoint, test of the requested (capped) size, alignment preserved on both parts; the class list is strictly increasing and holds exactly the labels, row i is the unit vector of the unique index of label i, multi-sequence output is the encoded concatenation cut at the original boundaries; an iterated-map series has the requested length, starts at x0 and every consecutive pair satisfies the map (logistic, Henon). NARMA: the implemented recurrence is stated, and a decide-witness shows it differs from the documented one (finding K8). Tied to the code by exact comparison of index maps / encodings on random shapes, axes, sizes and label types, and by evaluating the model's step function in exact rationals on every consecutive pair of the implementation's own series (residual <= 1e-13 relative).",
  note="Trusted: Lean kernel + standard axioms; lean/RpyModel/Datasets.lean; the harness (np.moveaxis to bring the time axis to the front; Python sorted() as the label order). Not verified: float rounding inside one map step (bounded by the residual tolerance).",
  design="§6 C20"),
 "C04": dict(
  technique="Lean 4 proof over any linearly ordered field (gap identity via trace algebra; induction over sequences for the accumulators) + correspondence in exact rationals with a certifying solve",
  text="Proved in Lean for every dataset (list of sequences), warm-up and lambda>0: the model's buffers equal the sums of x~x~^T and y x~^T over exactly the retained timesteps (C04_accumulate), warm-up rows have no influence (C04_warmup_irrelevant), any W passing the exact normal-equation certificate is the unique minimiser of sum ||V^T x~ - y||^2 + lambda ||V||^2 over the retained timesteps, bias and weights regularised together (C04_gap, C04_optimal, C04_fit_optimal, C04_unique_solution), prediction = Wout^T x + bias and the bias/weight split is the raw solution on the augmented input (C04_predict, C04_split_bias). Tied to the code by running the same model on exact rationals from the same dyadic/integer data: Ridge.fit's Wout/bias are compared with the certified exact optimum (1e-9) and their exact normal-equation residual is computed by the model; arrays, 3-D arrays, ragged lists, all dtypes, wild warm-up rows, an ill-conditioned stream.",
  note="Trusted: Lean kernel + standard axioms; lean/RpyModel/Readout.lean; the harness. The Gauss-Jordan solver in the model is untrusted (its output is used only after the exact certificate). Not verified: scipy.linalg.solve / BLAS rounding (bounded by the 1e-9 comparison on the generated conditioning range).",
  design="§6 C04"),
 "C10": dict(
  technique="Lean 4 proof over any linearly ordered field (Sherman-Morrison invariant, induction over all sample lists; list induction for gating) + correspondence in exact rationals (RLS/LMS/FORCE) and in Float (intrinsic plasticity)",
  text="Proved in Lean: from zero weights and P0=I/alpha (alpha>0), after ANY list of samples P*(alpha I + sum r r^T)=1 and (alpha I + sum r r^T) w = sum r y^T (C10_rls_is_ridge; the gain denominator is >= 1), hence w is the unique regularised least-squares optimum with lambda=alpha on the samples seen so far (C10_rls_optimal, via C04_optimal); the executable rlsStep is exactly that recursion (rlsStep_P/rlsStep_w); LMS performs w - alpha_n (pred - y) r^T and consumes exactly one schedule element per update; a training call updates exactly on the steps i with i % learn_every = 0 (or the single step of a one-step call) and returns for each step the prediction made before that step's update; the IP gradient steps are the documented formulas and a fit applies them epochs x timesteps times in order. Tied to the code by running the same definitions on exact rationals against RLS / LMS / FORCE trained in random splits of successive train calls (weights, bias, P after every call, every output; 1e-9) together with the closed form, and on Float against IPReservoir.fit (a, b, state).",
  note="Trusted: Lean kernel + standard axioms; lean/RpyModel/Online.lean; the harness. Not verified: float rounding of the recursions (1e-9 on <= 40 well-conditioned updates), libm tanh/exp in the Float regime.",
  design="§6 C10"),
 "C19": dict(
  technique="Lean 4 proof over (ordered) fields (list algebra for the metric laws; Mathlib charpoly lemmas for triangular spectra and similarity) + correspondence in exact rationals",
  text="Proved in Lean: mse is the mean of squared differences; mse(a y+c, a yh+c) = a^2 mse, the non-negative root scales by |a| and its square is mse; mean/variance respond affinely/quadratically; R^2 = 1 for perfect predictions, 0 for the mean predictor, invariant under y -> a y + c (a != 0); a dimension-wise metric's entry j is the metric of column j over all rows; different shapes are rejected; for an upper-triangular matrix the characteristic polynomial is prod (X - d_i) so the eigenvalues are the diagonal, conjugation by an invertible (permutation) matrix keeps the characteristic polynomial, the effective matrix is lr W + (1-lr) I (triangular with diagonal lr d_i + 1 - lr), and rhoDiag returns the attained maximum modulus. Tied to the code by exact-rational evaluation of every metric (global and per dimension, all normalisations, fresh inputs and in sequence on the same objects, input purity) and by spectral_radius / effective_spectral_radius on permutation-conjugated rational triangular matrices in dense / csr / csc storage.",
  note="Trusted: Lean kernel + standard axioms; lean/RpyModel/Metrics.lean; the harness. NOT verified: numpy.linalg.eig and ARPACK eigs on general matrices (only compared on the family whose spectrum is proved, 1e-6); np.quantile (q1q3) is checked by the harness oracle only; complex eigenvalues are not in the proved family yet.",
  design="§6 C19"),
 "C03": dict(
  technique="Lean 4 proof (invariant of the Kahn loop, soundness and completeness by induction with a fuel bound; list-membership algebra for link/merge) + exhaustive and random differential correspondence of graph construction",
  text="Proved in Lean for every duplicate-free graph whose edges join listed nodes: the model of topological_sort returns, when it accepts, an order containing every node exactly once with every edge going forward (C03_kahn_sound); it accepts every graph admitting a ranking (C03_kahn_complete; fuel |N|+1 suffices), so accepted <=> acyclic and any graph with a directed cycle - including cycles unreachable from any entry and graphs with no entry - is rejected (C03_accept_iff_ranked, C03_cycle_rejected); entries/exits are exactly the nodes without predecessor/successor; link(A,B) has exactly the nodes of both, all pre-existing edges and outputs(A) x inputs(B), many-to-many = union over pairs; merge is the union (commutative, idempotent, associative as sets); one step of Concat insertion adds one fresh Concat with each (distinct) parent once. Tied to the code by enumerating EVERY labelled digraph with self-loops on <=3 (quick) / <=4 (thorough) nodes through Model(nodes, edges), random digraphs on 5-8 nodes, random expressions and straight-line programs with shared intermediate models over >>, &, &=, link; the implementation's graph is canonicalised by the model's own canon and its order checked by validOrder; a structural oracle (each node once, order topological, entries/exits, no predecessor delivered twice) decides failing inputs.",
  note="Trusted: Lean kernel + standard axioms; lean/RpyModel/Graph.lean; the harness. Carried by correspondence only: equality up to Concat names for chained/nested expressions (associativity of >> and &). Finding K12 (stacked Concats deliver a predecessor twice) is mirrored by the model and reported as KNOWN-FINDING.",
  design="§6 C03"),
 "C02": dict(
  technique="Lean 4 proof (induction along a topological order: fixpoint, uniqueness, order-independence of the generic forward pass) + exact differential correspondence of Model.call/run on random DAGs of real nodes",
  text="Proved in Lean for every network (any node step functions, any parents relation), every topological order of any sub-graph and every store: after one forward pass each node of the order holds its step function applied to its own previous memory/state and to the NEW states of its parents followed by its external input (C02_forward_fixpoint: each node once, after its predecessors, on their same-step outputs), nodes outside the order and all proxies/clamps are untouched (C02_not_mem), these equations have a unique solution (C02_unique) and any two topological orders of the same nodes give the same result (C02_order_irrelevant); a named external input reaches exactly the named node (C02_named_inputs). The driver instantiates these same generic functions with the concrete node step functions of the reservoir / window / readout models. Tied to the code by random DAGs of 2-7 real nodes (fan-in, fan-out, diamonds, several entries/exits; Model(nodes, edges) or >> / &), call and run with array or name-keyed inputs, 1-3 sequences, every return_states selection: every returned row, the return convention (bare vs keyed) and state() of every node are compared exactly with the model, and with a node-by-node oracle that evaluates deep copies in a harness-computed topological order.",
  note="Trusted: Lean kernel + standard axioms; lean/RpyModel/Dataflow.lean and the node models; the harness. Fan-in column order is mirrored (parents sorted by name) - another fixed order would be reported as a correspondence break. Feedback is excluded here (C05).",
  design="§6 C02"),
 "C05": dict(
  technique="Lean 4 proof (invariants of the generic forward pass with frozen proxies and one-shot clamps; induction along the order and over the run loop) + exact differential correspondence of models with feedback",
  text="Proved in Lean for every network, order and store: the forward pass never changes a proxy (C05_proxy_frozen); for a topological order whose senders are frozen or outside the pass, each node's new state is its step function on the same-step states of its parents and on the feedback value determined by the store at the START of the step, wherever the sender stands (C05_forward_fixpoint); every iteration of the free-running loop ends with all model proxies = current states and no pending clamp (C05_step_synced), so at every step the receiver reads its sender's state of step t-1 - its pre-existing output at the first step, and for a sender outside the graph its unchanged state (C05_fb_prev_step); a pending forced value is what the receiver reads and it is consumed by that read (C05_forced_read, C05_clamp_once); entering with_feedback clamps a receiver with the value keyed by itself or by its sender (C05_enter_forced); the shift yields zero at step 0 then Y[t-1], or Y[t] without shift (C05_forced_shift). Tied to the code by random models with 1-2 receivers, sender downstream / upstream (incl. Input nodes) / outside the graph, plain node or unfitted Ridge, histories of free runs, forced runs (keyed by sender or receiver, shift on/off, several sequences), calls (with a reused, in-place overwritten input buffer), forced calls and resets: every node's output at every step and every state after every operation are compared exactly with the model and with a direct oracle that rebuilds each node from its descriptor and feeds each receiver, via a stub sender, the value the property prescribes.",
  note="Trusted: Lean kernel + standard axioms; lean/RpyModel/Dataflow.lean; the harness. Not in the model: sub-model senders (finding K1) and list senders (K10); teacher-forced fit/train is exercised by C06's harness.",
  design="§6 C05"),
 "C07": dict(
  technique="Lean 4 proof (list induction for node runs and the run loop; hand-over lemma clean-then-reload = identity on synced stores; gating arithmetic for online training) + twin-instance differential runs and exact comparison with the model",
  text="Proved in Lean: a reservoir / Delay / NVAR run over xs ++ ys returns the rows of the run over xs followed by those of the run over ys from the memory the first left, and the same final memory (C07_reservoir_chunks, C07_delay_chunks, C07_nvar_chunks); for every network with feedback connections, order and clean store, the free run of xs ++ ys gives the concatenated observations of running xs then ys and the same final store, and each run leaves a clean store, so any chunking including pieces of length one is covered by induction (C07_model_chunks); a free call is the one-step run (C07_call_eq_run1); online training on xs ++ ys equals training on xs then ys for learn_every = 1, and for learn_every = k when k divides |xs| and no piece has length one (C07_train_chunks, C07_train_chunks_k - the gate restarts in every call, which is why the hypotheses are needed). Tied to the code by building every case twice from the same descriptor and comparing, bit for bit, one run against random chunkings executed by run() or successive call()s, final state(), and a probe run afterwards - for every node class and for the random feedback models of C05 - plus online training (RLS / LMS / FORCE, alone or behind a reservoir) whole vs pieces; the single runs are also compared exactly with the Lean model.",
  note="Trusted: Lean kernel + standard axioms; the Lean models; the harness. Finding K3 (ESN.run never advances the node's state) is reported as KNOWN-FINDING; run = successive calls is checked normally for the ESN node.",
  design="§6 C07"),
 "C08": dict(
  technique="Lean 4 proof (frame lemmas for the forward pass and the run loop; unwinding lemma for the stateless contexts, for every failure point) + exact differential correspondence on random operation histories with injected failures",
  text="Proved in Lean for every network whose nodes keep no hidden memory outside their state (guard NoHidden, theorems named _partial), every order, clean store, from_state, reset flag and input sequence: a run with stateful=False returns exactly the store it started from - same states, memories, no proxy, no clamp (C08_stateless_run_noop_partial) - hence the same operation repeated gives the same result (C08_repeat_same_partial); the same holds when the run raises at ANY step k after ANY set of already evaluated nodes, given try/finally unwinding (C08_stateless_fail_noop_partial); from_state is overwrite-then-run (C08_from_state); reset makes two stores that differ only in model states equal, i.e. a reset model is a fresh one (C08_reset_fresh); the guard is necessary: a kernel-checked witness shows a node with hidden memory violating repeat-same (C08_hidden_leak_witness, finding K4). Tied to the code by random histories of call / run / run inside with_state / reset / reset(to_state) with every flag combination on single nodes and on the feedback models of C05, a node whose forward raises at a chosen step, every stateless operation repeated, reset-vs-fresh-twin runs: all states after every operation and all outputs are compared exactly with the model, and the property is evaluated directly (state() unchanged, repeat equal, reset = fresh).",
  note="Trusted: Lean kernel + standard axioms; lean/RpyModel/Dataflow.lean; the harness. The failure model assumes try/finally unwinding (defect D4, repaired by a fix commit; its witness is a permanent corpus case). Hidden-memory kinds (external-equation reservoirs, NVAR, Delay) are finding K4: mirrored by the model, reported as KNOWN-FINDING only when the outputs equal the model's.",
  design="§6 C08"),
 "C06": dict(
  technique="Lean 4 proof (invariant of the staging loop for every DAG; induction over time relating the step-by-step run to node-by-node runs; gating of the online loop) + correspondence with the exact explicit procedure computed by the Lean driver and with a node-level explicit procedure on twins",
  text="Proved in Lean: for every DAG, every choice of offline nodes and every node order, the staging of Model.fit trains only offline nodes and each at most once, runs each node forward at most once, trains or runs a node only after all its parents were run, and runs an offline node forward only after it was trained - no node ever consumes the output of an unfitted readout (C06_stage_invariants, from the per-pass invariant sinv_pass and the loop invariant sinv_loop); running a feed-forward model step by step gives every node exactly the output sequence the node produces when run alone on the sequence of its inputs (C06_nodewise_eq_stepwise: the step-by-step run inside fit IS the explicit node-by-node procedure); Model.train applies the rule on exactly the steps i % learn_every = 0 of the sequence and returns pre-update predictions (C06_train_refines_loop); an array and the equivalent name-keyed mapping are the same input (C06_array_eq_mapping). Tied to the code by fitting chains, deep models with 2-3 readouts, parallel readouts, input-to-readout shortcuts, teacher-forced feedback from a readout of the same or a later stage, force_teachers on/off and the ESN node (incl. refits) on 1-3 sequences with warm-up and array/mapping targets, and comparing every readout (1e-9) with the explicit procedure evaluated in exact rationals by the driver and with the explicit procedure written with node-level calls on twin nodes; Model.train (RLS/LMS/FORCE behind a reservoir, learn_every 1-3, array or one-key mapping inputs/targets) against the explicit per-step loop.",
  note="Trusted: Lean kernel + standard axioms; the Lean models and the driver glue lean/RpyModel/Drv/C06.lean; the harness. NOT proved: the composition 'staged fit as a whole = explicit procedure' (C06_fit_refines_explicit of the design) - carried by the correspondence. Finding K2 (ESN(use_raw_inputs=True).fit raises) is reported as KNOWN-FINDING; defects D3 and D14 were repaired by fix commits and stay as corpus cases.",
  design="§6 C06"),
}

NOT_YET = "check not built yet in this revision (planned, see DESIGN.md §11)"

def main():
    props = [json.loads(l) for l in open(os.path.join(ROOT, "properties.jsonl"))]
    checks, na = [], []
    for p in props:
        pid = p["id"]
        c = CLAIMS.get(pid)
        if c is None:
            na.append({"property_id": pid, "reason": NOT_YET})
            continue
        checks.append({
            "property_id": pid,
            "quick_cmd": f"./check {pid} --tier quick",
            "thorough_cmd": f"./check {pid} --tier thorough",
            "evidence_file": f"evidence/{pid}.json",
            "replay_cmd_template": f"./check {pid} --replay {{path}}",
            "engine": "lean4-proof+correspondence",
            "level_claimed": {"category": c.get("category", "proof"), "text": c["text"], "design_ref": c["design"]},
            "level_note": c["note"],
            "technique": c["technique"],
        })
    m = {
        "version": 1,
        "setup_cmd": "cd lean && lake build",
        "hooks": {
            "guard": "RESERVOIRPY_VERIF",
            "enable": "environment variable RESERVOIRPY_VERIF=1 at run time (set by ./check); pure Python, nothing to rebuild",
            "baseline_off_cmd": "cd /repo && env -u RESERVOIRPY_VERIF /venv/bin/python -m pytest -ra -q -p no:cacheprovider --timeout=900 --continue-on-collection-errors",
            "source_commits": HOOK_COMMITS,
            "add_only": True,
        },
        "engines": [{
            "name": "lean4-proof+correspondence",
            "path": "check",
            "serves_properties": [c["property_id"] for c in checks],
            "kind_free_text": "Lean 4 theorems about a hand-written executable model (lean/RpyModel, lean/RpyProofs) + per-run differential correspondence of the model driver with the real library (harness/), direct oracle for failing-input search",
        }],
        "checks": checks,
        "not_applicable": na,
        "notes": "See DESIGN.md. ./check exits 0 held / 1 violation / 2 framework error. known_findings.json lists recorded defects.",
    }
    with open(os.path.join(ROOT, "MANIFEST.json"), "w") as f:
        json.dump(m, f, indent=1)

HOOK_COMMITS = []

if __name__ == "__main__":
    main()
