#!/usr/bin/env python3
"""Prints the prompt given to a mutation sub-agent for one property (property text only)."""
import json, sys
pid = sys.argv[1]
p = [json.loads(l) for l in open('/verif/properties.jsonl') if json.loads(l)['id'] == pid][0]
print(f"""You are helping test a verification effort by playing the adversary. You work ONLY inside the scratch git worktree /tmp/wt_{pid} (a checkout of the Python library reservoirpy 0.3.12 — reservoir computing / Echo State Networks). Do not read or touch /verif or /repo; do not look for other people's checks. Write your results to /tmp/seeded_out/{pid}/.

The library is supposed to satisfy this semantic property:

  Title: {p['title']}
  Statement: {p['statement']}
  Quantified over: {p['quantifier']['text']}
  Code it is anchored in: {', '.join(p['anchors']['files'])}

Your task: produce TWO independent, realistic source changes (bugs) to the library code under /tmp/wt_{pid}/reservoirpy (not the tests) that each BREAK this property while the package still imports and the existing test suite still passes exactly as before. They should look like plausible regressions a maintainer could introduce (a refactor gone subtly wrong, an off-by-one, a wrong operand, a lost special case, a stale cache, a missing restore...), and each should use a different mechanism / code site. Prefer changes that need something specific to manifest — a particular multi-step sequence of operations, an unusual but legal configuration or input, a failure at a particular point, two cooperating sites that each look fine alone — rather than changes that any ordinary use would expose immediately. Do not add files to the library, do not touch tests, keep each change small (a few lines).

How to run things (no network; everything is installed):
  - Python: /venv/bin/python (3.12, numpy/scipy/sklearn installed). The venv has an editable install of ANOTHER checkout, so always run with the worktree first on the path:  cd /tmp/wt_{pid} && PYTHONPATH=/tmp/wt_{pid} /venv/bin/python your_script.py   and make your script print reservoirpy.__file__ once to be sure it is /tmp/wt_{pid}/reservoirpy/...
  - Test suite (about 1-2 minutes):  cd /tmp/wt_{pid} && PYTHONPATH=/tmp/wt_{pid} /venv/bin/python -m pytest -q -p no:cacheprovider --timeout=900 reservoirpy 2>&1 | tail -8
    On the unmodified tree exactly 393 tests pass and 4 fail (the 4 failures are environment incompatibilities: test_japanese_vowels needs the network, 2 ScikitLearnNode tests, 1 mat_gen test hitting scipy ARPACK directly; ignore them). With your change the same 393 must still pass and the same 4 fail.
  - Call reservoirpy.verbosity(0) in scripts to silence progress bars.

For each of the two changes (call them A and B) deliver, in /tmp/seeded_out/{pid}/A/ and /tmp/seeded_out/{pid}/B/:
  1. patch.diff — produced with `git -C /tmp/wt_{pid} diff` with ONLY that change applied (reset the worktree with `git -C /tmp/wt_{pid} checkout -- .` between A and B so the patches are independent and each applies to a clean checkout).
  2. demo.py — a small standalone program that exits 0 on the unmodified tree and exits non-zero (assertion failure showing the property broken, with a short printed explanation) when the patch is applied. It must take the library from PYTHONPATH (no hard-coded sys.path), be deterministic, and run in a few seconds.
  3. meta.json — {{"property": "{pid}", "summary": "...what the change does...", "needs": "...what specific condition is needed for it to manifest...", "files": [...], "tests_run": "command and pass/fail counts you observed with the patch applied"}}.
Verify yourself, for each change: (i) demo passes on clean tree, (ii) demo fails with patch, (iii) test-suite counts unchanged with patch. Never use `git stash` (the stash is shared by every worktree of the repository and other people work in sibling worktrees at the same time): to get back to a clean tree use `git checkout -- .`, to re-apply your change use `git apply your_patch.diff`. Leave the worktree clean (git checkout -- .) when you finish. Finish with a short report of what you produced. Be efficient: don't explore more of the code base than you need.""")
